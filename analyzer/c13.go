package main

import (
	"fmt"
	"go/token"
	"go/types"
	"reflect"
	"strings"

	"golang.org/x/tools/go/ssa"
)

const mergoPath = "dario.cat/mergo"

// reallocatedBeforeOverrideMerge: paths (below Overridables, Go field names)
// of pointer fields that Config.Get re-points to a fresh copy before it merges
// the override block into the Info.
func reallocatedBeforeOverrideMerge(c *Ctx) map[string]bool {
	out := map[string]bool{}
	get := c.Method("", "Config", "Get")
	if get == nil {
		return out
	}
	pa := newProv(c)
	fam := getFamily(c, get)
	var second *ssa.Call
	for _, fn := range fam {
		forEachInstr(fn, func(in ssa.Instruction) {
			call, ok := in.(*ssa.Call)
			if !ok || !calleeIs(call, mergoPath, "", "Merge") {
				return
			}
			dst := call.Call.Args[0]
			if mi, ok := dst.(*ssa.MakeInterface); ok {
				dst = mi.X
			}
			if p, root := addrPath(dst); root != nil && p == "Overridables" {
				second = call
			}
		})
	}
	if second == nil {
		return out
	}
	host := second.Parent()
	// resolvePath: the field path of an address below the fresh Info, through
	// helper parameters (single call site) - "" when it is not rooted there
	var resolvePath func(v ssa.Value, d int) (string, bool)
	resolvePath = func(v ssa.Value, d int) (string, bool) {
		if d > 4 {
			return "", false
		}
		p, root := addrPath(v)
		if root == nil {
			p, root = "", v // not a field address: the value itself
		}
		switch r := root.(type) {
		case *ssa.Alloc:
			return p, isPtrToNamed(r.Type(), modPath, "Info")
		case *ssa.Parameter:
			fn := r.Parent()
			idx := -1
			for i, q := range fn.Params {
				if q == r {
					idx = i
				}
			}
			sites := pa.callSites(fn)
			if len(sites) != 1 || idx < 0 || idx >= len(sites[0].Common().Args) {
				return "", false
			}
			pre, ok := resolvePath(sites[0].Common().Args[idx], d+1)
			if !ok {
				return "", false
			}
			if p == "" {
				return pre, true
			}
			if pre == "" {
				return p, true
			}
			return pre + "." + p, true
		}
		// a local holding the fresh Info (named result, phi of one value)
		if root != nil {
			if al, ok := resolveUp(c, pa, root).(*ssa.Alloc); ok && isPtrToNamed(al.Type(), modPath, "Info") {
				return p, true
			}
		}
		return "", false
	}
	// beforeMerge: the instruction (or the call chain that leads to it from
	// the merge's function) comes before the override merge on every path
	beforeMerge := func(in ssa.Instruction, done *ssa.BasicBlock) bool {
		at := in
		for hop := 0; hop < 3 && at.Parent() != host; hop++ {
			sites := pa.callSites(at.Parent())
			if len(sites) != 1 {
				return false
			}
			at, done = sites[0], nil
		}
		if at.Parent() != host {
			return false
		}
		if done != nil {
			return done == second.Block() || done.Dominates(second.Block())
		}
		return instrDominates(at, second)
	}
	record := func(full string) {
		if strings.HasPrefix(full, "Overridables.") {
			out[strings.TrimPrefix(full, "Overridables.")] = true
		}
	}
	var scan []*ssa.Function
	seen := map[*ssa.Function]bool{}
	for _, f := range fam {
		scan = append(scan, f)
		seen[f] = true
	}
	for i := 0; i < len(scan) && i < 8; i++ {
		forEachInstr(scan[i], func(in ssa.Instruction) {
			if call, ok := in.(*ssa.Call); ok {
				if sc := call.Call.StaticCallee(); sc != nil && sc.Blocks != nil && c.isModuleFunc(sc) && !seen[sc] {
					for _, a := range call.Call.Args {
						if isPtrToNamed(a.Type(), modPath, "Overridables") || isPtrToNamed(a.Type(), modPath, "Info") {
							seen[sc] = true
							scan = append(scan, sc)
						}
					}
				}
			}
		})
	}
	for _, fn := range scan {
		forEachInstr(fn, func(in ssa.Instruction) {
			st, ok := in.(*ssa.Store)
			if !ok || !freshPointer(c, st.Val) {
				return
			}
			// direct: x.A.B.KeyID = <fresh>
			if full, ok := resolvePath(st.Addr, 0); ok && full != "" {
				if beforeMerge(st, nil) {
					record(full)
				}
				return
			}
			// through the element of a table of addresses:
			//   for _, p := range []*T{&x.A, &x.B} { p.KeyID = <fresh> }   or   { *p = <fresh> }
			p, root := addrPath(st.Addr)
			if root == nil {
				root = st.Addr
			}
			ld, ok := root.(*ssa.UnOp)
			if !ok || ld.Op != token.MUL {
				return
			}
			ia, ok := ld.X.(*ssa.IndexAddr)
			if !ok {
				return
			}
			arr, done := fullRangeOver(ia, ld)
			if arr == nil || !beforeMerge(st, done) {
				return
			}
			for _, ref := range *arr.Referrers() {
				slot, ok := ref.(*ssa.IndexAddr)
				if !ok || slot == ia {
					continue
				}
				for _, r2 := range *slot.Referrers() {
					if es, ok := r2.(*ssa.Store); ok && es.Addr == ssa.Value(slot) {
						if rp, ok := resolvePath(es.Val, 0); ok {
							full := rp
							if p != "" {
								full = rp + "." + p
							}
							record(full)
						}
					}
				}
			}
		})
	}
	return out
}

// getFamily: Config.Get and the module functions it hands the Info it is
// building to (the override step extracted into a helper).
func getFamily(c *Ctx, get *ssa.Function) []*ssa.Function {
	fam := []*ssa.Function{get}
	seen := map[*ssa.Function]bool{get: true}
	for i := 0; i < len(fam) && i < 4; i++ {
		forEachInstr(fam[i], func(in ssa.Instruction) {
			call, ok := in.(*ssa.Call)
			if !ok {
				return
			}
			sc := call.Call.StaticCallee()
			if sc == nil || sc.Blocks == nil || !c.isModuleFunc(sc) || seen[sc] {
				return
			}
			for _, a := range call.Call.Args {
				if isPtrToNamed(a.Type(), modPath, "Info") {
					seen[sc] = true
					fam = append(fam, sc)
					return
				}
			}
		})
	}
	return fam
}

// freshPointer: an allocation, or the result of a module function all of
// whose returns are nil or an allocation made in that function.
func freshPointer(c *Ctx, v ssa.Value) bool {
	switch x := v.(type) {
	case *ssa.Alloc:
		return true
	case *ssa.Call:
		sc := x.Call.StaticCallee()
		if sc == nil || sc.Blocks == nil || !c.isModuleFunc(sc) {
			return false
		}
		n := 0
		for _, b := range sc.Blocks {
			ret, ok := b.Instrs[len(b.Instrs)-1].(*ssa.Return)
			if !ok {
				continue
			}
			for _, res := range retResults(ret) {
				n++
				if k, isC := res.(*ssa.Const); isC && k.IsNil() {
					continue
				}
				if _, isAlloc := res.(*ssa.Alloc); !isAlloc {
					return false
				}
			}
		}
		return n > 0
	}
	return false
}

// checkMergeAlias implements A1 (DESIGN C13): mergo dereferences pointers and
// merges into the pointee, so any pointer-kind field below Overridables (other
// than inside slice elements / map values, which are replaced wholesale, and
// func values, which are copied) is a place where merging an override block
// writes through into the base configuration.
func checkMergeAlias(c *Ctx, r *Report, rule string) {
	ov := c.NamedType("", "Overridables")
	if ov == nil {
		r.Unresolved("nfpm.Overridables", "type not found")
		return
	}
	n := 0
	realloc := reallocatedBeforeOverrideMerge(c)
	seen := map[types.Type]bool{}
	var walk func(t types.Type, path, gopath string)
	walk = func(t types.Type, path, gopath string) {
		st, ok := t.Underlying().(*types.Struct)
		if !ok {
			return
		}
		if seen[t] && path != "" {
			// still walk: paths differ (rpm/deb/apk signature blocks)
		}
		seen[t] = true
		for i := 0; i < st.NumFields(); i++ {
			f := st.Field(i)
			tag := reflect.StructTag(st.Tag(i))
			name := yamlName(tag, f.Name())
			p := path
			if !(f.Embedded() || strings.Contains(tag.Get("yaml"), ",inline")) {
				if p != "" {
					p += "."
				}
				p += name
			}
			n++
			switch u := f.Type().Underlying().(type) {
			case *types.Pointer:
				if realloc[goPath(gopath, f.Name())] {
					r.Pass(rule, "Overridables."+goPath(gopath, f.Name())+" ("+types.TypeString(f.Type(), relativeTo)+")", c.pos(f.Pos()),
						fmt.Sprintf("pointer-kind overridable field (yaml key %q) is re-pointed to a fresh copy in Config.Get before the override block is merged", p))
					continue
				}
				r.Fail(rule, "Overridables."+goPath(gopath, f.Name())+" ("+types.TypeString(f.Type(), relativeTo)+")", c.pos(f.Pos()),
					fmt.Sprintf("pointer-kind overridable field (yaml key %q): merging an override block for one format assigns through the pointer shared with the base configuration, changing what every later Config.Get returns", p))
			case *types.Struct:
				walk(f.Type(), p, goPath(gopath, f.Name()))
			default:
				_ = u
			}
		}
	}
	walk(ov, "", "")
	r.Count("overridable_fields_walked", n)
	if n < 40 {
		r.Fail("instance-floor", rule, "-", fmt.Sprintf("only %d overridable fields walked (expected >= 40)", n))
	}
	r.Pass(rule, "type tree of nfpm.Overridables", "-", fmt.Sprintf("%d fields walked; pointer-kind fields are reported individually", n))
}

func relativeTo(p *types.Package) string { return p.Name() }

func goPath(path, name string) string {
	if path == "" {
		return name
	}
	return path + "." + name
}

func yamlName(tag reflect.StructTag, def string) string {
	y := tag.Get("yaml")
	if y == "" {
		return strings.ToLower(def)
	}
	n := strings.Split(y, ",")[0]
	if n == "" {
		return strings.ToLower(def)
	}
	return n
}

func init() { register("C13", checkC13) }

func checkC13(c *Ctx, r *Report) {
	r.Rules = []string{"S-get shape of Config.Get (two merges, override option only, lookup by the requested format)", "D1 content filter table", "V1 override keys validated against the packager registry", "A1 merge-aliasing hazard walk", "documented overridable keys are overridable fields", "S-get the override block is consumed by the merge only", "A-block-as-written override blocks are written only by the environment expansion", "S-get-self fields Config.Get re-allocates are copied from themselves", "block-F15-self override blocks are expanded field by field from themselves (imported from C16)", "V1 no iteration of the override loop skips the registry lookup", "CLI-get-final the command asks Config.Get for the packager it looks up in the registry", "plan-K7-no-dedup (imported from C05)"}
	r.Explanation = "Shape and table rules over go/ssa and go/types. (S-get) Config.Get performs exactly two mergo.Merge calls: the base Info (by value) into a freshly allocated Info, and the override block obtained by a map lookup whose key is the requested format — nothing else — into that Info's overridable part; both with exactly the option WithOverride (so lists are replaced wholesale and only non-empty values override); the path without an override block returns the base copy. (D1) the content filter in Get is evaluated for every (entry tag, requested format) cell and keeps an entry iff its tag is empty or the requested format. (V1) Config.Validate passes every key of the overrides table to the packager registry lookup and returns its error; the registry lookup fails for an unknown format. (A1) the type tree of Overridables is walked for pointer-kind fields, through which mergo would write into the base configuration, unless Get re-points them to fresh copies before the override merge. The documented '(overridable)' keys are fields of Overridables. mergo's reflective merge itself is trusted."
	r.Explanation += " The override block is consumed by the merge alone: no field of the looked-up block is read directly in Config.Get or the helpers it hands the fresh Info to."
	r.Explanation += " (A-block-as-written) every store whose address is rooted at an element of Config.Overrides (a map lookup, a range value, or a parameter bound to one at a call site) lies in the environment-expansion family."
	r.Explanation += " (S-get-self) in Get and its helpers a store into the handed-out Info whose value derives from configuration fields derives from the same field. (V1, extended) from the loop body's entry no path returns to the loop header without passing the registry lookup."
	r.Explanation += " (CLI-get-final) in the command the format handed to Config.Get is the SSA value handed to nfpm.Get."
	r.Assumptions = []string{
		"mergo v1.0.1 with WithOverride replaces a destination value by a non-empty source value, slices wholesale, nested structs field by field, and re-makes maps",
	}
	get := c.Method("", "Config", "Get")
	if get == nil {
		r.Unresolved("(*nfpm.Config).Get", "not found")
		return
	}
	var merges []*ssa.Call
	pa := newProv(c)
	for _, fn := range getFamily(c, get) {
		forEachInstr(fn, func(in ssa.Instruction) {
			if call, ok := in.(*ssa.Call); ok {
				if o := calleeObj(call); o != nil && o.Pkg() != nil && o.Pkg().Path() == mergoPath {
					merges = append(merges, call)
				}
			}
		})
	}
	r.Check(len(merges) == 2, "S-get", "number of merges in Config.Get", c.pos(get.Pos()), fmt.Sprintf("%d mergo calls; exactly two are expected (base into fresh Info, override block into its overridable part)", len(merges)))
	var formatParam *ssa.Parameter
	for _, p := range get.Params {
		if b, ok := p.Type().Underlying().(*types.Basic); ok && b.Kind() == types.String {
			formatParam = p
		}
	}
	for i, m := range merges {
		construct := fmt.Sprintf("merge#%d in Config.Get", i+1)
		if !calleeIs(m, mergoPath, "", "Merge") {
			r.Fail("S-get", construct, c.instrPos(m), "only mergo.Merge is expected, found "+calleeName(m))
			continue
		}
		// options: exactly WithOverride
		var opts []string
		for _, e := range variadicElems(m.Call.Args[2]) {
			switch x := e.(type) {
			case *ssa.Function:
				opts = append(opts, x.Name())
			case *ssa.Call:
				opts = append(opts, calleeName(x))
			default:
				opts = append(opts, fmt.Sprintf("%T", e))
			}
		}
		r.Check(len(opts) == 1 && opts[0] == "WithOverride", "S-get", construct+": options", c.instrPos(m), fmt.Sprintf("options %v; exactly [WithOverride] keeps 'non-empty override wins, lists wholesale' semantics", opts))
		dst := m.Call.Args[0]
		if mi, ok := dst.(*ssa.MakeInterface); ok {
			dst = mi.X
		}
		src := m.Call.Args[1]
		if mi, ok := src.(*ssa.MakeInterface); ok {
			src = mi.X
		}
		src = resolveUp(c, pa, src)
		if i == 0 {
			_, fresh := resolveUp(c, pa, dst).(*ssa.Alloc)
			srcOK := false
			if ld, ok := src.(*ssa.UnOp); ok {
				if p, root := addrPath(ld.X); root != nil && p == "Info" && isPtrToNamed(root.Type(), modPath, "Config") {
					srcOK = true // c.Info by value
				}
			}
			r.Check(fresh && isPtrToNamed(dst.Type(), modPath, "Info") && srcOK, "S-get", construct+": base copy", c.instrPos(m),
				fmt.Sprintf("destination is a fresh *Info=%v, source is the configuration's Info by value=%v", fresh, srcOK))
		} else {
			p, root := addrPath(dst)
			fresh := false
			if root != nil {
				_, fresh = resolveUp(c, pa, root).(*ssa.Alloc)
			}
			dstOK := p == "Overridables" && fresh
			// source: lookup in c.Overrides keyed by the format parameter
			srcOK := false
			if ex, ok := src.(*ssa.Extract); ok {
				if lk, ok := ex.Tuple.(*ssa.Lookup); ok {
					if ld, ok := lk.X.(*ssa.UnOp); ok {
						if pp, _ := addrPath(ld.X); pp == "Overrides" && lk.Index == ssa.Value(formatParam) {
							srcOK = true
						}
					}
				}
			}
			if lk, ok := src.(*ssa.Lookup); ok {
				if ld, ok := lk.X.(*ssa.UnOp); ok {
					if pp, _ := addrPath(ld.X); pp == "Overrides" && lk.Index == ssa.Value(formatParam) {
						srcOK = true
					}
				}
			}
			r.Check(dstOK && srcOK, "S-get", construct+": override merge", c.instrPos(m),
				fmt.Sprintf("destination is the fresh Info's overridable part=%v; source is c.Overrides[<requested format>]=%v (a different key would let another format's block take effect)", dstOK, srcOK))
		}
	}
	// the override block takes effect through the merge alone: Get (and its
	// helpers) read no field of the block themselves - a hand-made selection
	// ("take the block's key id when it is set") has its own idea of "set"
	// (non-nil) that differs from the merge's (non-empty)
	{
		var blocks []ssa.Value
		for _, fn := range getFamily(c, get) {
			forEachInstr(fn, func(in ssa.Instruction) {
				switch x := in.(type) {
				case *ssa.Extract:
					if lk, ok := x.Tuple.(*ssa.Lookup); ok && x.Index == 0 {
						if ld, ok := lk.X.(*ssa.UnOp); ok {
							if pp, _ := addrPath(ld.X); pp == "Overrides" {
								blocks = append(blocks, x)
							}
						}
					}
				case *ssa.Lookup:
					if !x.CommaOk {
						if ld, ok := x.X.(*ssa.UnOp); ok {
							if pp, _ := addrPath(ld.X); pp == "Overrides" {
								blocks = append(blocks, x)
							}
						}
					}
				}
			})
		}
		// parameters of helpers that receive the block
		for i := 0; i < len(blocks) && i < 16; i++ {
			for _, ref := range *blocks[i].Referrers() {
				call, ok := ref.(*ssa.Call)
				if !ok {
					continue
				}
				sc := call.Call.StaticCallee()
				if sc == nil || sc.Blocks == nil || !c.isModuleFunc(sc) {
					continue
				}
				for j, a := range call.Call.Args {
					if a == blocks[i] && j < len(sc.Params) {
						blocks = append(blocks, sc.Params[j])
					}
				}
			}
		}
		var direct ssa.Instruction
		for _, b := range blocks {
			for _, ref := range *b.Referrers() {
				if fa, ok := ref.(*ssa.FieldAddr); ok && direct == nil {
					direct = fa
				}
			}
		}
		if direct != nil {
			r.Fail("S-get", "the override block is consumed by the merge only", c.instrPos(direct), "a field of the override block is read directly here: whether the block \"sets\" a field is then decided by this code and not by the merge (non-empty), so an explicitly empty value in the block can displace the base value")
		} else {
			r.Check(len(blocks) > 0, "S-get", "the override block is consumed by the merge only", c.pos(get.Pos()), fmt.Sprintf("%d value(s) denote the looked-up block; none of their fields is read outside mergo.Merge", len(blocks)))
		}
	}

	// no-override path returns the base copy
	okBase := false
	for _, b := range get.Blocks {
		ret, ok := b.Instrs[len(b.Instrs)-1].(*ssa.Return)
		if !ok {
			continue
		}
		res := retResults(ret)
		if len(res) == 2 {
			if _, isAlloc := res[0].(*ssa.Alloc); isAlloc {
				if k, isC := res[1].(*ssa.Const); isC && k.IsNil() {
					// reached on the !ok edge of the overrides lookup?
					for _, p := range b.Preds {
						if ifi, ok := p.Instrs[len(p.Instrs)-1].(*ssa.If); ok {
							if ex, ok := ifi.Cond.(*ssa.Extract); ok && ex.Index == 1 {
								if _, isLk := ex.Tuple.(*ssa.Lookup); isLk && p.Succs[1] == b {
									okBase = true
								}
							}
						}
					}
				}
			}
		}
	}
	r.Check(okBase, "S-get", "format without an override block gets the base copy", c.pos(get.Pos()), "the not-found edge of the overrides lookup must return the freshly merged base Info")
	// every Info that Get returns is the destination of the deep-copying base
	// merge, and that merge has run: a plain struct copy (cp := c.Info) shares
	// the maps and slices of the configuration with the caller
	{
		var baseMerge *ssa.Call
		var baseDst ssa.Value
		for _, m := range merges {
			dst := m.Call.Args[0]
			if mi, ok := dst.(*ssa.MakeInterface); ok {
				dst = mi.X
			}
			if al, ok := resolveUp(c, pa, dst).(*ssa.Alloc); ok && isPtrToNamed(al.Type(), modPath, "Info") && baseMerge == nil {
				baseMerge, baseDst = m, al
			}
		}
		okDeep := baseMerge != nil
		why := "every success return of Get hands out the destination of the base merge, after the merge"
		for _, b := range get.Blocks {
			ret, ok := b.Instrs[len(b.Instrs)-1].(*ssa.Return)
			if !ok {
				continue
			}
			res := retResults(ret)
			if len(res) != 2 {
				continue
			}
			if k, isC := res[0].(*ssa.Const); isC && k.IsNil() {
				continue // error return
			}
			if baseMerge == nil || res[0] != baseDst || baseMerge.Parent() == get && !instrDominates(baseMerge, ret) {
				okDeep = false
				why = fmt.Sprintf("the Info returned at %s is not the destination of the deep-copying merge of the base configuration (or is returned before that merge ran): its maps and lists would be the configuration's own", c.instrPos(ret))
			}
		}
		r.Check(okDeep, "S-get", "every returned Info is the deep copy made by the base merge", c.pos(get.Pos()), why)
	}
	// the list that is filtered by packager is the merged Info's own (after the
	// override block has replaced it), not the configuration's base list
	{
		okSrc, found := true, false
		whySrc := "the filter ranges over the fresh Info's contents"
		scan := getFamily(c, get)
		// ... and helpers that are handed the list itself
		for _, fn := range append([]*ssa.Function{}, scan...) {
			forEachInstr(fn, func(in ssa.Instruction) {
				if call, ok := in.(*ssa.Call); ok {
					if sc := call.Call.StaticCallee(); sc != nil && sc.Blocks != nil && c.isModuleFunc(sc) {
						for _, a := range call.Call.Args {
							if isContentContainer(a.Type()) {
								dup := false
								for _, f := range scan {
									if f == sc {
										dup = true
									}
								}
								if !dup {
									scan = append(scan, sc)
								}
							}
						}
					}
				}
			})
		}
		for _, fn := range scan {
			forEachInstr(fn, func(in ssa.Instruction) {
				call, ok := in.(*ssa.Call)
				if !ok {
					return
				}
				b, isB := call.Call.Value.(*ssa.Builtin)
				if !isB || b.Name() != "append" || !isContentContainer(call.Type()) {
					return
				}
				for _, e := range variadicElems(call.Call.Args[1]) {
					ld, ok := e.(*ssa.UnOp)
					if !ok {
						continue
					}
					ia, ok := ld.X.(*ssa.IndexAddr)
					if !ok {
						continue
					}
					found = true
					src := resolveUp(c, pa, ia.X)
					root := src
					if l2, ok := src.(*ssa.UnOp); ok {
						_, root = addrPath(l2.X)
						if prm, isPrm := root.(*ssa.Parameter); isPrm && prm.Parent() == get {
							// the configuration itself (Get's receiver)
						} else if root != nil {
							root = resolveUp(c, pa, root)
						}
					}
					if _, isAlloc := root.(*ssa.Alloc); !isAlloc {
						okSrc = false
						whySrc = fmt.Sprintf("the list filtered at %s is not read from the freshly merged Info (it is %s): contents set by the override block would be ignored", c.instrPos(call), shorten(valueExpr(c, src, 0), 60))
					}
				}
			})
		}
		if !found {
			whySrc = "no filtering append of content entries found in Config.Get or its helpers"
		}
		r.Check(found && okSrc, "S-get", "the content filter reads the merged contents", c.pos(get.Pos()), whySrc)
	}

	// ---- D1 content filter ----
	cells := 0
	for _, format := range append(append([]string{}, specFormats...), "otherfmt") {
		for _, tag := range []string{"", format, "zz-other"} {
			cells++
			ev := newEvaluator(c)
			obj := newAObj("content")
			obj.Fields["Packager"] = cStr(tag)
			ev.Defaults[c.contentPtrKey()] = obj
			args := make([]AV, len(get.Params))
			for i, p := range get.Params {
				if p == formatParam {
					args[i] = cStr(format)
				}
			}
			fr := ev.Explore(get, args)
			kept := false
			for _, li := range fr.LiveInstrs() {
				if call, ok := li.In.(*ssa.Call); ok {
					if b, ok := call.Call.Value.(*ssa.Builtin); ok && b.Name() == "append" && isContentContainer(call.Type()) {
						kept = true
					}
				}
			}
			want := tag == "" || tag == format
			r.Check(kept == want, "D1", fmt.Sprintf("Get(%q) keeps entry tagged %q", format, tag), c.pos(get.Pos()), fmt.Sprintf("kept=%v, expected=%v", kept, want))
		}
	}
	r.Count("filter_cells", cells)

	// ---- V1 ----
	val := c.Method("", "Config", "Validate")
	reg := c.Func("", "Get")
	if val == nil || reg == nil {
		r.Unresolved("Config.Validate / nfpm.Get", "not found")
	} else {
		okV := false
		why := "Config.Validate must range over c.Overrides and pass each key to the registry lookup, returning its error"
		for _, mr := range findMapRanges(val) {
			ld, ok := mr.Range.X.(*ssa.UnOp)
			if !ok {
				continue
			}
			if p, _ := addrPath(ld.X); p != "Overrides" {
				continue
			}
			// the registry's own map, as nfpm.Get reads it
			var regGlobal *ssa.Global
			forEachInstr(reg, func(in ssa.Instruction) {
				if lk, ok := in.(*ssa.Lookup); ok && lk.CommaOk {
					if g := rootGlobal(lk.X); g != nil {
						regGlobal = g
					}
				}
			})
			for _, b := range mr.bodyBlocks() {
				for _, in := range b.Instrs {
					// the lookup done in place: `_, ok := packagers[key]` with
					// the not-found edge returning an error
					if lk, isLk := in.(*ssa.Lookup); isLk && lk.CommaOk && regGlobal != nil && rootGlobal(lk.X) == regGlobal && lk.Index == mr.Key && lk.Referrers() != nil {
						for _, ref := range *lk.Referrers() {
							ex, isEx := ref.(*ssa.Extract)
							if !isEx || ex.Index != 1 || ex.Referrers() == nil {
								continue
							}
							for _, r2 := range *ex.Referrers() {
								ifi, isIf := r2.(*ssa.If)
								if !isIf {
									continue
								}
								notFound := ifi.Block().Succs[1]
								if ret, isRet := notFound.Instrs[len(notFound.Instrs)-1].(*ssa.Return); isRet && errorIsNonNilAt(ret) {
									okV = true
									why = "every override key is looked up in the registry map and an unknown one returns an error"
									header := mr.Next.Block()
									seen := map[*ssa.BasicBlock]bool{}
									var dfs func(b *ssa.BasicBlock) bool
									dfs = func(b *ssa.BasicBlock) bool {
										if b == lk.Block() || seen[b] {
											return false
										}
										if b == header {
											return true
										}
										seen[b] = true
										for _, s := range b.Succs {
											if dfs(s) {
												return true
											}
										}
										return false
									}
									if mr.Body != nil && dfs(mr.Body) {
										okV = false
										why = "some iterations of the loop over the override blocks skip the registry lookup: a block under an unregistered format's key would be accepted (and then silently ignored)"
									}
								}
							}
						}
					}
					call, ok := in.(*ssa.Call)
					if !ok || call.Call.StaticCallee() != reg || call.Call.Args[0] != mr.Key {
						continue
					}
					ev, _ := errValueOf(call)
					if ev == nil {
						why = "the registry lookup's error is discarded"
						continue
					}
					if ok2, w := notSwallowed(c, val, ev); ok2 && usedInNilTest(ev) {
						okV = true
						why = "every override key is looked up in the registry and a failure is returned"
						// ... every key: no iteration gets back to the loop
						// header without passing the lookup (a `continue` for
						// blocks that are empty, say)
						header := mr.Next.Block()
						seen := map[*ssa.BasicBlock]bool{}
						var dfs func(b *ssa.BasicBlock) bool
						dfs = func(b *ssa.BasicBlock) bool {
							if b == call.Block() || seen[b] {
								return false
							}
							if b == header {
								return true
							}
							seen[b] = true
							for _, s := range b.Succs {
								if dfs(s) {
									return true
								}
							}
							return false
						}
						if mr.Body != nil && dfs(mr.Body) {
							okV = false
							why = "some iterations of the loop over the override blocks skip the registry lookup: a block under an unregistered format's key would be accepted (and then silently ignored)"
						}
					} else {
						why = w
					}
				}
			}
		}
		r.Check(okV, "V1", "Config.Validate checks every override key", c.pos(val.Pos()), why)
		// registry lookup fails for an unknown format
		okR := false
		forEachInstr(reg, func(in ssa.Instruction) {
			lk, ok := in.(*ssa.Lookup)
			if !ok || !lk.CommaOk || len(reg.Params) == 0 || lk.Index != ssa.Value(reg.Params[0]) {
				return
			}
			for _, ref := range *lk.Referrers() {
				ex, ok := ref.(*ssa.Extract)
				if !ok || ex.Index != 1 {
					continue
				}
				for _, r2 := range *ex.Referrers() {
					if ifi, ok := r2.(*ssa.If); ok {
						nf := ifi.Block().Succs[1]
						if ret, ok := nf.Instrs[len(nf.Instrs)-1].(*ssa.Return); ok && errorIsNonNilAt(ret) {
							okR = true
						}
					}
				}
			}
		})
		// ... and it is the only table consulted: an alias table beside the
		// registry accepts names that have no packager of their own
		var other ssa.Instruction
		forEachInstr(reg, func(in ssa.Instruction) {
			if lk, ok := in.(*ssa.Lookup); ok && other == nil {
				if _, isMap := lk.X.Type().Underlying().(*types.Map); isMap {
					if g := rootGlobal(lk.X); g == nil || !strings.Contains(strings.ToLower(g.Name()), "packager") {
						other = in
					}
				}
			}
		})
		if other != nil {
			r.Fail("V1", "nfpm.Get consults the packager registry only", c.instrPos(other), "a second table decides which format names are accepted: a name found there passes validation although no override block for it is ever applied")
		} else {
			r.Pass("V1", "nfpm.Get consults the packager registry only", c.pos(reg.Pos()), "one map lookup, on the registry")
		}
		r.Check(okR, "V1", "nfpm.Get fails for an unregistered format", c.pos(reg.Pos()), "the not-found edge of the registry lookup (keyed by the requested format) must return a non-nil error")
	}

	// ---- entries addressed to another packager never reach the plan ----
	if prep := c.Func("files", "PrepareForPackager"); prep != nil {
		n := 0
		for _, format := range specFormats {
			for _, typ := range allTypes {
				n++
				ev := newEvaluator(c)
				obj := newAObj("content")
				obj.Fields["Type"] = cStr(typ)
				obj.Fields["Packager"] = cStr("zz-other-packager")
				ev.Defaults[c.contentPtrKey()] = obj
				args := make([]AV, len(prep.Params))
				for i, p := range prep.Params {
					if b, ok := p.Type().Underlying().(*types.Basic); ok && b.Kind() == types.String {
						args[i] = cStr(format)
					}
				}
				got := planMarkers(c, ev.Explore(prep, args))
				r.Check(len(got) == 0, "D1-plan", fmt.Sprintf("plan for %s excludes type %q addressed to another packager", format, typ), c.pos(prep.Pos()),
					fmt.Sprintf("planner mechanisms live {%s}: an entry tagged for another packager must not be planned, whatever its type", joinSorted(got)))
			}
		}
		r.Count("plan_cells", n)
	}
	// ---- Get does not write the base configuration ----
	checkSharedSlicesIn(c, r, c.Reach(get))

	// ---- A1 ----
	checkMergeAlias(c, r, "A1")

	// ---- documented overridable keys ----
	docKeys, err := documentedKeys(c.RepoDir, "(overridable)")
	if err != nil {
		r.Unresolved("www/docs/configuration.md", err.Error())
	} else {
		ov := c.NamedType("", "Overridables")
		names := map[string]bool{}
		if st, ok := ov.Underlying().(*types.Struct); ok {
			for i := 0; i < st.NumFields(); i++ {
				names[yamlName(reflect.StructTag(st.Tag(i)), st.Field(i).Name())] = true
			}
		}
		for _, k := range docKeys {
			r.Check(names[k], "DOC-overridable", "documented overridable key "+k, "www/docs/configuration.md", "a key documented as overridable must be a field of Overridables (otherwise an override block setting it is rejected or ignored)")
		}
		r.Floor("DOC-overridable", len(docKeys), 7)
	}
	// what the block sets is what the packager uses: with a format-specific
	// architecture configured the stored architecture is that value (rule
	// D3-override of C02)
	checkOverrideBlocksUntouched(c, r)
	checkGetCopiesSelf(c, r)
	checkCLIGetsFinalPackager(c, r)
	// a per-entry packager tag is honoured entry by entry: the planner drops
	// no entry because an earlier one looked the same (rule of C05)
	importRules(c, r, checkC05, "plan-", []string{"K7-no-dedup"}, nil)
	// ... and the expansion writes each field of a block back from itself
	// (rule of C16): a block's ipk list fed from its deb list changes a
	// setting the block never mentioned
	r.Floor("block-F15-self", importRules(c, r, checkC16, "block-", []string{"F15-self"}, func(o Obligation) bool { return true }), 12)
	r.Floor("used-D3-override", importRules(c, r, checkC02, "used-", []string{"D3-override"}, nil), 3)
	r.Exhaustive = true
}

// checkOverrideBlocksUntouched (A-block-as-written): "exactly the fields the
// block sets": an override block holds what the configuration file wrote into
// it, so that merging it changes those fields and no others. Apart from the
// environment expansion (which rewrites a field from itself, C16) no module
// code stores into a block of Config.Overrides - a default filled into a
// block would be merged over the base value as if the file had set it.
func checkOverrideBlocksUntouched(c *Ctx, r *Report) {
	pa := newProv(c)
	exp := map[*ssa.Function]bool{}
	for _, f := range expansionFamily(c) {
		exp[f] = true
	}
	n := 0
	var bad []string
	var at ssa.Instruction
	for _, fn := range c.ModFuncs {
		if strings.HasPrefix(c.funcPkgPath(fn), modPath+"/internal/cmd") {
			continue
		}
		forEachInstr(fn, func(in ssa.Instruction) {
			st, ok := in.(*ssa.Store)
			if !ok {
				return
			}
			pth, root := addrPath(st.Addr)
			if root == nil || !isPtrToNamed(root.Type(), modPath, "Overridables") {
				return
			}
			into := false
			switch x := root.(type) {
			case *ssa.Parameter:
				idx := -1
				for i, q := range fn.Params {
					if q == x {
						idx = i
					}
				}
				for _, cs := range pa.callSites(fn) {
					if idx >= 0 && idx < len(cs.Common().Args) && isOverrideElem(cs.Common().Args[idx]) {
						into = true
					}
				}
			default:
				into = isOverrideElem(root)
			}
			if !into {
				return
			}
			n++
			if !exp[fn] {
				bad = append(bad, fmt.Sprintf("%s in %s", pth, c.funcKey(fn)))
				at = st
			}
		})
	}
	pos := "-"
	if at != nil {
		pos = c.instrPos(at)
	}
	r.Check(len(bad) == 0, "A-block-as-written", "override blocks are written only by the environment expansion", pos,
		fmt.Sprintf("%d store(s) into blocks of Config.Overrides; outside the expansion: %v - a value filled into a block is merged over the base setting although the file's block never mentioned the field", n, uniq(bad)))
	r.Floor("A-block-as-written", n, 5)
}

// checkGetCopiesSelf (S-get-self): where Config.Get (or a helper of it)
// re-allocates a field of the Info it hands out, the new value is a copy of
// that very field - a copy taken from a sibling field (the deb key id stored
// as the rpm key id) silently replaces one format's setting by another's.
func checkGetCopiesSelf(c *Ctx, r *Report) {
	pa := newProv(c)
	n := 0
	leaf := func(a string) string {
		for _, pre := range []string{"Info.", "Info.", "Overridables."} {
			a = strings.TrimPrefix(a, pre)
		}
		return a
	}
	get := c.Method("", "Config", "Get")
	if get == nil {
		r.Unresolved("(*Config).Get", "method not found")
		return
	}
	for _, fn := range getFamily(c, get) {
		k := 0
		forEachInstr(fn, func(in ssa.Instruction) {
			st, ok := in.(*ssa.Store)
			if !ok {
				return
			}
			pth, root := addrPath(st.Addr)
			if root == nil || pth == "" {
				return
			}
			rt := rootTypeName(root.Type())
			if rt == "" || !c.isModuleType(root.Type()) {
				return
			}
			var srcs []string
			for _, a := range pa.Of(st.Val).list() {
				if strings.HasPrefix(a, "Info.") || strings.HasPrefix(a, "Overridables.") || strings.HasPrefix(a, rt+".") {
					srcs = append(srcs, a)
				}
			}
			if len(srcs) == 0 {
				return
			}
			n++
			k++
			self := false
			for _, a := range srcs {
				if leaf(a) == leaf(rt+"."+pth) {
					self = true
				}
			}
			r.Check(self, "S-get-self", fmt.Sprintf("store#%d in %s copies %s from itself", k, c.funcKey(fn), leaf(rt+"."+pth)), c.instrPos(st),
				fmt.Sprintf("the value stored into %s derives from %v: a copy taken from another field replaces this setting by that one", leaf(rt+"."+pth), srcs))
		})
	}
	r.Floor("S-get-self", n, 1)
}

// checkCLIGetsFinalPackager (CLI-get-final): the command asks the configuration
// for the settings of the packager it is going to use. The format handed to
// Config.Get is the very value handed to the registry lookup - after the
// packager has been inferred from the target when none was given - otherwise
// Get("") returns the base settings and the format's override block is
// ignored.
func checkCLIGetsFinalPackager(c *Ctx, r *Report) {
	dp := c.Func("internal/cmd", "doPackage")
	get := c.Method("", "Config", "Get")
	reg := c.Func("", "Get")
	if dp == nil || get == nil || reg == nil {
		r.Unresolved("internal/cmd.doPackage", "command function, Config.Get or nfpm.Get not found")
		return
	}
	var cfgArg, regArg ssa.Value
	var at ssa.Instruction
	for _, fn := range sortedFuncs(c, c.Reach(dp)) {
		if c.funcPkgPath(fn) != c.funcPkgPath(dp) {
			continue
		}
		forEachInstr(fn, func(in ssa.Instruction) {
			call, ok := in.(*ssa.Call)
			if !ok {
				return
			}
			switch call.Call.StaticCallee() {
			case get:
				cfgArg = call.Call.Args[len(call.Call.Args)-1]
				at = in
			case reg:
				regArg = call.Call.Args[0]
			}
		})
	}
	if cfgArg == nil || regArg == nil {
		r.Unresolved("internal/cmd.doPackage", "the calls of Config.Get and nfpm.Get were not both found on the command's call graph")
		return
	}
	r.Check(cfgArg == regArg || sameValue(cfgArg, regArg), "CLI-get-final", "the command asks Config.Get for the packager it looks up in the registry", c.instrPos(at),
		fmt.Sprintf("Config.Get is handed %s, the registry lookup %s: when the packager is inferred from the target the settings are taken for another (empty) format and its override block is ignored", shorten(valueExpr(c, cfgArg, 0), 60), shorten(valueExpr(c, regArg, 0), 60)))
}
