package main

import (
	"fmt"
	"go/types"
	"reflect"
	"strings"

	"golang.org/x/tools/go/ssa"
)

const mergoPath = "dario.cat/mergo"

// reallocatedBeforeOverrideMerge: paths (below Overridables, Go field names)
// of pointer fields that Config.Get re-points to a fresh copy before it merges
// the override block into the Info.
func reallocatedBeforeOverrideMerge(c *Ctx) map[string]bool {
	out := map[string]bool{}
	get := c.Method("", "Config", "Get")
	if get == nil {
		return out
	}
	var second *ssa.Call
	forEachInstr(get, func(in ssa.Instruction) {
		call, ok := in.(*ssa.Call)
		if !ok || !calleeIs(call, mergoPath, "", "Merge") {
			return
		}
		dst := call.Call.Args[0]
		if mi, ok := dst.(*ssa.MakeInterface); ok {
			dst = mi.X
		}
		if p, root := addrPath(dst); root != nil && p == "Overridables" {
			second = call
		}
	})
	if second == nil {
		return out
	}
	forEachInstr(get, func(in ssa.Instruction) {
		st, ok := in.(*ssa.Store)
		if !ok || !instrDominates(st, second) {
			return
		}
		p, root := addrPath(st.Addr)
		if root == nil || !strings.HasPrefix(p, "Overridables.") {
			return
		}
		if _, isAlloc := root.(*ssa.Alloc); !isAlloc {
			return
		}
		if freshPointer(c, st.Val) {
			out[strings.TrimPrefix(p, "Overridables.")] = true
		}
	})
	return out
}

// freshPointer: an allocation, or the result of a module function all of
// whose returns are nil or an allocation made in that function.
func freshPointer(c *Ctx, v ssa.Value) bool {
	switch x := v.(type) {
	case *ssa.Alloc:
		return true
	case *ssa.Call:
		sc := x.Call.StaticCallee()
		if sc == nil || sc.Blocks == nil || !c.isModuleFunc(sc) {
			return false
		}
		n := 0
		for _, b := range sc.Blocks {
			ret, ok := b.Instrs[len(b.Instrs)-1].(*ssa.Return)
			if !ok {
				continue
			}
			for _, res := range retResults(ret) {
				n++
				if k, isC := res.(*ssa.Const); isC && k.IsNil() {
					continue
				}
				if _, isAlloc := res.(*ssa.Alloc); !isAlloc {
					return false
				}
			}
		}
		return n > 0
	}
	return false
}

// checkMergeAlias implements A1 (DESIGN C13): mergo dereferences pointers and
// merges into the pointee, so any pointer-kind field below Overridables (other
// than inside slice elements / map values, which are replaced wholesale, and
// func values, which are copied) is a place where merging an override block
// writes through into the base configuration.
func checkMergeAlias(c *Ctx, r *Report, rule string) {
	ov := c.NamedType("", "Overridables")
	if ov == nil {
		r.Unresolved("nfpm.Overridables", "type not found")
		return
	}
	n := 0
	realloc := reallocatedBeforeOverrideMerge(c)
	seen := map[types.Type]bool{}
	var walk func(t types.Type, path, gopath string)
	walk = func(t types.Type, path, gopath string) {
		st, ok := t.Underlying().(*types.Struct)
		if !ok {
			return
		}
		if seen[t] && path != "" {
			// still walk: paths differ (rpm/deb/apk signature blocks)
		}
		seen[t] = true
		for i := 0; i < st.NumFields(); i++ {
			f := st.Field(i)
			tag := reflect.StructTag(st.Tag(i))
			name := yamlName(tag, f.Name())
			p := path
			if !(f.Embedded() || strings.Contains(tag.Get("yaml"), ",inline")) {
				if p != "" {
					p += "."
				}
				p += name
			}
			n++
			switch u := f.Type().Underlying().(type) {
			case *types.Pointer:
				if realloc[goPath(gopath, f.Name())] {
					r.Pass(rule, "Overridables."+goPath(gopath, f.Name())+" ("+types.TypeString(f.Type(), relativeTo)+")", c.pos(f.Pos()),
						fmt.Sprintf("pointer-kind overridable field (yaml key %q) is re-pointed to a fresh copy in Config.Get before the override block is merged", p))
					continue
				}
				r.Fail(rule, "Overridables."+goPath(gopath, f.Name())+" ("+types.TypeString(f.Type(), relativeTo)+")", c.pos(f.Pos()),
					fmt.Sprintf("pointer-kind overridable field (yaml key %q): merging an override block for one format assigns through the pointer shared with the base configuration, changing what every later Config.Get returns", p))
			case *types.Struct:
				walk(f.Type(), p, goPath(gopath, f.Name()))
			default:
				_ = u
			}
		}
	}
	walk(ov, "", "")
	r.Count("overridable_fields_walked", n)
	if n < 40 {
		r.Fail("instance-floor", rule, "-", fmt.Sprintf("only %d overridable fields walked (expected >= 40)", n))
	}
	r.Pass(rule, "type tree of nfpm.Overridables", "-", fmt.Sprintf("%d fields walked; pointer-kind fields are reported individually", n))
}

func relativeTo(p *types.Package) string { return p.Name() }

func goPath(path, name string) string {
	if path == "" {
		return name
	}
	return path + "." + name
}

func yamlName(tag reflect.StructTag, def string) string {
	y := tag.Get("yaml")
	if y == "" {
		return strings.ToLower(def)
	}
	n := strings.Split(y, ",")[0]
	if n == "" {
		return strings.ToLower(def)
	}
	return n
}
