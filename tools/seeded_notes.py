#!/usr/bin/env python3
"""Adds the human summary / what-it-needs-to-manifest text to each seeded meta.json."""
import json, os
verif = os.path.dirname(os.path.dirname(os.path.abspath(__file__)))
N = {
 "C01-agent-1": ("glob.Glob keeps the common string prefix when it happens to be an existing directory instead of cutting it back to its parent", "a glob whose matches' common prefix is itself a directory name (all matches below one directory that is also a match prefix)"),
 "C01-agent-2": ("addParents collision test folded into !IsDir(), then falls through and stores a fresh implicit directory over an explicit one", "an explicit dir entry with non-default owner/mode that is also a parent of a later entry"),
 "C01-agent-3": ("deb passes info.MTime as preferred mtime for regular files too", "a package-level mtime together with regular files whose own mtime differs"),
 "C04-agent-1": ("apk writeTgz pads cut segments by 512 - count%512 (1..512, never 0)", "the last entry of a cut segment being an exact multiple of 512 bytes (4096-bit RSA signature, empty script)"),
 "C04-agent-2": ("arch createScripts returns early when the common script block is empty, ignoring the Arch-specific upgrade scripts", "only archlinux.scripts.preupgrade/postupgrade configured"),
 "C04-agent-3": ("deb tarHeader sets Size in the literal for every member class", "a symlink entry whose target exists as a non-empty file on the build host"),
 "C02-agent-1": ("parseSemver fills prerelease/metadata from the version string only when BOTH are unconfigured", "one component embedded in `version` and the other set by its own key (v1.4.0+git… with prerelease: rc2)"),
 "C02-agent-2": ("deb.ensureValidArch consults the GOARCH table before the deb.arch override", "generic arch that is a key of the deb table (arm6) together with a deb.arch override"),
 "C02-agent-3": ("ipk multiline helper tests a line for blankness before trimming it", "a whitespace-only or CRLF 'blank' line inside the description"),
 "C03-agent-1": ("ipk populateDataTar hoists the per-entry size out of the loop, re-adding the previous file's size for dirs/symlinks", "a regular file >= 1 KiB followed in destination order by a directory or symlink"),
 "C03-agent-2": ("arch .PKGINFO digests computed through a MultiWriter while the backup lines still go to the buffer directly", "a payload with a config entry (backup = lines)"),
 "C03-agent-3": ("apk per-file SHA-1 PAX record written only when the content is non-empty", "an empty regular file in the payload"),
 "C05-agent-1": ("isRelevantForPackager returns early on a packager tag, skipping the rpm-only / deb-only type filters", "an rpm-only type (ghost, doc …) or the changelog type with an explicit packager tag of another format"),
 "C05-agent-2": ("addTree's collision check uses !IsDir() instead of 'not an implicit dir'", "an explicit dir declared before a tree that produces the same directory"),
 "C05-agent-3": ("glob common-directory computed with a string prefix test without a path separator", "glob matches in sibling directories where one name is a prefix of the other (lib/, lib64/)"),
 "C06-agent-1": ("CLI keeps the target on failure when it existed before the run", "an existing file at the target followed by a failing run"),
 "C06-agent-2": ("arch.Package ends with a checked zw.Flush(); the frame end is left to the deferred Close", "the destination writer failing on one of the last two writes"),
 "C06-agent-3": ("debSign returns from the callback path before the signature type is validated", "SignFn set together with an invalid debsign type"),
 "C07-agent-1": ("modtime.FromEnv treats a parsed value of 0 like 'unset'", "SOURCE_DATE_EPOCH=0 and no mtime in the config"),
 "C07-agent-2": ("ipk stripDisallowedFields de-duplicates custom fields case-insensitively in map order", "two custom ipk fields differing only in case, repeated builds"),
 "C07-agent-3": ("apk gzip block size derived from GOMAXPROCS", "builds under different GOMAXPROCS with a data segment larger than the block size"),
 "C08-agent-1": ("same early return in isRelevantForPackager as C05-agent-1", "an rpm-only typed entry with an explicit non-rpm packager tag"),
 "C08-agent-2": ("planner folds config|noreplace / config|missingok into config for non-rpm packagers, writing the caller's entry", "prepare/validate for a non-rpm format before building the rpm"),
 "C08-agent-3": ("deb conffiles skips config entries outside /etc/", "a config entry installed outside /etc"),
 "C09-agent-1": ("deb normalises CRLF to LF in script bytes", "a script containing 0D 0A"),
 "C09-agent-2": ("rpm.Package calls addScriptFiles only when a generic script is set", "only pretrans/posttrans/verify configured"),
 "C09-agent-3": ("arch .INSTALL buffer taken from a sync.Pool without Reset", "a failed build after a partially written .INSTALL, then a successful build in the same process"),
 "C11-agent-1": ("Config.Get filters contents in place on info.Contents[:0]", "an overrides block plus a packager-tagged entry before a kept one, Get for two formats"),
 "C11-agent-2": ("apk.Package rewrites depends/provides/replaces element-wise", "a relation entry with whitespace, apk built before another format"),
 "C11-agent-3": ("planner rewrites Content.Type on the caller's entry for non-rpm packagers", "config|noreplace entry, non-rpm format or Validate before rpm"),
 "C12-agent-1": ("same in-place filter in Config.Get", "concurrent Get for two formats on one parsed config"),
 "C12-agent-2": ("deb data tarball buffer from a sync.Pool, bytes returned while the buffer is put back", "two overlapping deb builds in one process"),
 "C12-agent-3": ("apk data segment spooled to a temp file named after name+version", "two concurrent apk builds of the same name and version"),
 "C13-agent-1": ("same in-place filter in Config.Get", "one Config asked for two formats in sequence"),
 "C13-agent-2": ("Config.Validate looks override keys up with sort.SearchStrings over Enumerate() without comparing the hit", "an unregistered key that sorts before the largest registered name"),
 "C13-agent-3": ("isRelevantForPackager rewritten as a type switch that returns before the packager tag is compared", "a format-specific type with another format's packager tag"),
 "C14-agent-1": ("parseSemver returns early when either prerelease or metadata is configured", "one explicit, the other embedded in version"),
 "C14-agent-2": ("rpm formatVersion applies the '-' -> '_' escaping to the whole assembled string", "a dash outside the prerelease (schema none, metadata build-7)"),
 "C14-agent-3": ("semver.NewVersion replaced by StrictNewVersion", "a version with one or two numeric parts or a v prefix"),
 "C15-agent-1": ("arch table gains \"arm\": \"armv7h\" (arm5 -> arm -> armv7h)", "arch arm5: file name says arm, .PKGINFO says armv7h"),
 "C15-agent-2": ("rpm ConventionalFileName replaces '-' by '_' in version and release", "a dash in the version metadata or the release"),
 "C15-agent-3": ("doPackage uses os.Lstat for the directory test", "a target that is a symlink to an existing directory"),
 "C16-agent-1": ("UnmarshalYAML on ContentFileInfo decoding through yaml.Node.Decode", "a misspelt key below contents[].file_info"),
 "C16-agent-2": ("list expansion helper skips items without '$' before trimming", "a list item with surrounding whitespace and no '$'"),
 "C16-agent-3": ("passphrase selection folded into a closure that assigns the captured general value", "a partial set of NFPM_*_PASSPHRASE variables"),
 "C17-agent-1": ("new content type added to code, docs and enum tag without regenerating schema.json", "the published schema is compared with the command's output"),
 "C17-agent-2": ("UnmarshalYAML on Content (fresh decoder loses KnownFields)", "a misspelt key inside a contents entry"),
 "C17-agent-3": ("new key whose yaml and json names differ, schema regenerated", "archlinux.groups accepted by the parser, archlinux.group by the schema"),
}
for sid, (summary, needs) in N.items():
    mp = os.path.join(verif, "seeded", sid, "meta.json")
    if not os.path.exists(mp):
        continue
    m = json.load(open(mp))
    m["summary"] = summary
    m["needs_to_manifest"] = needs
    json.dump(m, open(mp, "w"), indent=1)
print("ok")
