#!/usr/bin/env python3
"""Runs every registered check against behaviour-preserving changes.

usage: eval_neutral.py <dir-with-k/patch.diff> <prefix> [--keep]   (new changes from a sub-agent)
       eval_neutral.py --recheck [substr]                           (those kept under /verif/neutral)
A check that exits non-zero on such a change is a FALSE ALARM."""
import json, os, subprocess, sys, tempfile, shutil
verif = os.path.dirname(os.path.dirname(os.path.abspath(__file__)))
env = dict(os.environ, GOFLAGS="-mod=mod", GOPROXY="off", GOSUMDB="off", GOTOOLCHAIN="local", GOWORK="off")
def sh(*a, **k): return subprocess.run(a, capture_output=True, text=True, env=env, **k)

items = []
keep = "--keep" in sys.argv
if sys.argv[1] == "--recheck":
    sel = [a for a in sys.argv[2:] if not a.startswith("--")]
    base = os.path.join(verif, "neutral")
    for sid in sorted(os.listdir(base)):
        if os.path.isdir(os.path.join(base, sid)) and (not sel or any(s in sid for s in sel)):
            items.append((sid, os.path.join(base, sid)))
else:
    src, prefix = sys.argv[1], sys.argv[2]
    for k in sorted(os.listdir(src)):
        if os.path.exists(os.path.join(src, k, "patch.diff")):
            items.append((f"{prefix}-{k}", os.path.join(src, k)))
tmp = tempfile.mkdtemp(prefix="nfpm-neutral-")
wt = os.path.join(tmp, "repo")
assert sh("git", "-C", "/repo", "worktree", "add", "--detach", wt, "HEAD").returncode == 0
built = sh(os.path.join(verif, "bin/nfpmcheck"), "-list").stdout.split()
alarms = 0
try:
    for sid, d in items:
        sh("git", "-C", wt, "checkout", "--", "."); sh("git", "-C", wt, "clean", "-fdq")
        r = sh("git", "-C", wt, "apply", "--3way", os.path.join(os.path.abspath(d), "patch.diff"))
        sh("git", "-C", wt, "reset", "-q")
        if r.returncode != 0:
            print(f"SKIP  {sid}: patch does not apply"); continue
        if sh("go", "build", "./...", cwd=wt).returncode != 0:
            print(f"SKIP  {sid}: does not build"); continue
        t = sh("go", "test", "-vet=off", "-count=1", "./...", cwd=wt)
        if t.returncode != 0:
            print(f"SKIP  {sid}: suite fails with it (not behaviour-preserving?)"); continue
        fired = {}
        for p in built:
            r = sh(os.path.join(verif, "bin/nfpmcheck"), "-verif", verif, "-out", tmp, "-repo", wt, "-property", p, "-tier", "quick")
            if r.returncode != 0:
                fired[p] = [l.strip() for l in r.stdout.splitlines() if l.startswith("  rule=")][:3]
        if fired:
            alarms += 1
            print(f"ALARM {sid}: " + "; ".join(f"{p}: {v[0][:230] if v else ''}" for p, v in fired.items()))
        else:
            print(f"quiet {sid}")
        if keep:
            out = os.path.join(verif, "neutral", sid)
            os.makedirs(out, exist_ok=True)
            if os.path.abspath(d) != os.path.abspath(out):
                shutil.copy(os.path.join(d, "patch.diff"), out)
                if os.path.exists(os.path.join(d, "README.md")):
                    shutil.copy(os.path.join(d, "README.md"), os.path.join(out, "NOTES.md"))
            json.dump({"id": sid, "kind": "behaviour-preserving", "suite_passes_with_patch": True, "checks_fired_quick": fired},
                      open(os.path.join(out, "meta.json"), "w"), indent=1)
finally:
    sh("git", "-C", "/repo", "worktree", "remove", "--force", wt)
    shutil.rmtree(tmp, ignore_errors=True)
print("false alarms:", alarms, "of", len(items))
