#!/usr/bin/env python3
"""Confirms a sub-agent's seeded change and runs the checks against it.

usage: eval_seeded.py <src-dir containing patch.diff demo_test.go README.md> <seeded-id> <property> [--keep]

Steps (all in a scratch worktree of /repo's HEAD under $TMPDIR, removed afterwards):
  1. demo passes on the pristine tree
  2. patch applies (3-way), tree builds, full suite passes with the patch
  3. demo fails with the patch
  4. every registered check is run on the patched tree; reports which fire
With --keep the confirmed change is stored as /verif/seeded/<seeded-id>/.
"""
import json, os, re, shutil, subprocess, sys, tempfile
verif = os.path.dirname(os.path.dirname(os.path.abspath(__file__)))
env = dict(os.environ, GOFLAGS="-mod=mod", GOPROXY="off", GOSUMDB="off", GOTOOLCHAIN="local", GOWORK="off")

def sh(*a, **k):
    return subprocess.run(a, capture_output=True, text=True, env=env, **k)

def main():
    src, sid, prop = sys.argv[1], sys.argv[2], sys.argv[3]
    keep = "--keep" in sys.argv
    race = "--race" in sys.argv
    demo = open(os.path.join(src, "demo_test.go")).read()
    demo_args = ["go", "test", "-vet=off", "-count=1"]
    if race:
        # demonstrations of data races run alone, under the race detector
        tm = re.search(r"^func (Test\w+)\(", demo, re.M)
        demo_args = ["go", "test", "-race", "-vet=off", "-count=1"] + (["-run", "^" + tm.group(1) + "$"] if tm else [])
    m = re.match(r"//\s*dir:\s*(\S+)", demo)
    ddir = m.group(1) if m else "."
    tmp = tempfile.mkdtemp(prefix="nfpm-seeded-")
    wt = os.path.join(tmp, "repo")
    res = {"id": sid, "property": prop}
    try:
        r = sh("git", "-C", "/repo", "worktree", "add", "--detach", wt, "HEAD")
        assert r.returncode == 0, r.stderr
        dst = os.path.join(wt, ddir, "zz_seeded_demo_test.go")
        shutil.copy(os.path.join(src, "demo_test.go"), dst)
        r = sh(*demo_args, "./" + ddir, cwd=wt)
        res["demo_passes_pristine"] = r.returncode == 0
        if r.returncode != 0:
            res["pristine_output"] = (r.stdout + r.stderr)[-1500:]
        os.remove(dst)
        r = sh("git", "-C", wt, "apply", "--3way", os.path.join(os.path.abspath(src), "patch.diff"))
        res["patch_applies"] = r.returncode == 0
        if r.returncode != 0:
            res["apply_err"] = r.stderr[-800:]
            print(json.dumps(res, indent=1)); return
        sh("git", "-C", wt, "reset", "-q")
        r = sh("go", "build", "./...", cwd=wt)
        res["builds"] = r.returncode == 0
        r = sh("go", "test", "-vet=off", "-count=1", "./...", cwd=wt)
        res["suite_passes_with_patch"] = r.returncode == 0
        if r.returncode != 0:
            res["suite_output"] = (r.stdout + r.stderr)[-1500:]
        shutil.copy(os.path.join(src, "demo_test.go"), dst)
        r = sh(*demo_args, "./" + ddir, cwd=wt)
        res["demo_fails_with_patch"] = r.returncode != 0
        os.remove(dst)
        built = sh(os.path.join(verif, "bin/nfpmcheck"), "-list").stdout.split()
        fired = {}
        for p in built:
            r = sh(os.path.join(verif, "bin/nfpmcheck"), "-verif", verif, "-out", tmp, "-repo", wt, "-property", p, "-tier", "quick")
            if r.returncode != 0:
                fired[p] = [l.strip() for l in r.stdout.splitlines() if l.startswith("  rule=")][:4]
        res["checks_fired"] = fired
        res["caught_by_own_property"] = prop in fired
        ok = res["demo_passes_pristine"] and res["suite_passes_with_patch"] and res["demo_fails_with_patch"]
        res["confirmed"] = ok
        if keep and ok:
            out = os.path.join(verif, "seeded", sid)
            os.makedirs(out, exist_ok=True)
            shutil.copy(os.path.join(src, "patch.diff"), out)
            shutil.copy(os.path.join(src, "demo_test.go"), out)
            if os.path.exists(os.path.join(src, "README.md")):
                shutil.copy(os.path.join(src, "README.md"), os.path.join(out, "NOTES.md"))
            meta = {"id": sid, "breaks_property": prop, "demo_dir": ddir,
                    "needs_to_manifest": "see NOTES.md",
                    "confirmed": {"demo_passes_on_pristine_HEAD": True, "suite_passes_with_patch": True, "demo_fails_with_patch": True,
                                  "how": "tools/eval_seeded.py in a scratch worktree of /repo HEAD (go test -vet=off -count=1 ./...; " + " ".join(demo_args) + " ./<demo dir>)"},
                    "checks_fired_quick": fired, "caught_by_own_property": prop in fired}
            json.dump(meta, open(os.path.join(out, "meta.json"), "w"), indent=1)
    finally:
        sh("git", "-C", "/repo", "worktree", "remove", "--force", wt)
        shutil.rmtree(tmp, ignore_errors=True)
    print(json.dumps(res, indent=1))

main()
