#!/usr/bin/env python3
"""Re-runs every registered check against each kept seeded change
(/verif/seeded/<id>/patch.diff applied to a scratch worktree of /repo HEAD)
and updates meta.json with which checks fire. usage: recheck_seeded.py [id-substring ...]"""
import json, os, subprocess, sys, tempfile, shutil
verif = os.path.dirname(os.path.dirname(os.path.abspath(__file__)))
env = dict(os.environ, GOFLAGS="-mod=mod", GOPROXY="off", GOSUMDB="off", GOTOOLCHAIN="local", GOWORK="off")
def sh(*a, **k): return subprocess.run(a, capture_output=True, text=True, env=env, **k)
sel = sys.argv[1:]
tmp = tempfile.mkdtemp(prefix="nfpm-recheck-")
wt = os.path.join(tmp, "repo")
assert sh("git", "-C", "/repo", "worktree", "add", "--detach", wt, "HEAD").returncode == 0
built = sh(os.path.join(verif, "bin/nfpmcheck"), "-list").stdout.split()
missed = 0
try:
    for sid in sorted(os.listdir(os.path.join(verif, "seeded"))):
        d = os.path.join(verif, "seeded", sid)
        if not os.path.isdir(d) or (sel and not any(s in sid for s in sel)):
            continue
        meta = json.load(open(os.path.join(d, "meta.json")))
        sh("git", "-C", wt, "checkout", "--", "."); sh("git", "-C", wt, "clean", "-fdq")
        r = sh("git", "-C", wt, "apply", "--3way", os.path.join(d, "patch.diff"))
        sh("git", "-C", wt, "reset", "-q")
        if r.returncode != 0:
            print(f"SKIP  {sid}: patch no longer applies"); continue
        if sh("go", "build", "./...", cwd=wt).returncode != 0:
            print(f"SKIP  {sid}: does not build on the current tree"); continue
        fired = {}
        for p in built:
            r = sh(os.path.join(verif, "bin/nfpmcheck"), "-verif", verif, "-out", tmp, "-repo", wt, "-property", p, "-tier", "quick")
            if r.returncode != 0:
                fired[p] = [l.strip() for l in r.stdout.splitlines() if l.startswith("  rule=")][:3]
        own = meta["breaks_property"]
        meta["checks_fired_quick"] = fired
        meta["caught_by_own_property"] = own in fired
        json.dump(meta, open(os.path.join(d, "meta.json"), "w"), indent=1)
        tag = "caught" if own in fired else ("other " if fired else "MISSED")
        if own not in fired: missed += 1
        print(f"{tag} {sid} [{own}] fired={sorted(fired)}" + ("" if own not in fired else "  " + fired[own][0][:150]))
finally:
    sh("git", "-C", "/repo", "worktree", "remove", "--force", wt)
    shutil.rmtree(tmp, ignore_errors=True)
print("not caught by own property:", missed)
