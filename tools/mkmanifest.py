#!/usr/bin/env python3
"""Regenerates /verif/MANIFEST.json from the per-property table below.
A property is listed under checks once its rule set is registered in the
analyzer (bin/nfpmcheck -list); otherwise it stays under not_applicable with
the reason."""
import json, subprocess, os, sys
here = os.path.dirname(os.path.dirname(os.path.abspath(__file__)))

P = {
 "C01": dict(ref="§5 C01", tech="static analysis: abstract evaluation of the payload writers' type dispatch (go/ssa) + header-field provenance",
   text="Decides, from /repo's current source and for every (prepared entry type x packager) cell, that the five payload writers dispatch each type to the right kind of archive entry (dir / link / file / skipped / header-only), and that every header field the statement names (name, mode incl. setuid bits, owner, group, mtime, link target, bytes opened from the entry's source) is fed from the matching Content field; default mode is stat &^ umask. It decides this structural part, not byte equality of payloads.",
   note="Trusted: go/types, go/ssa, archive/tar.FileInfoHeader model, rpmpack.RPMFile field meaning. Not decided: copied bytes equal the source, glob results, concrete mode values, 'nothing else in the payload'."),
 "C02": dict(ref="§5 C02", tech="static analysis: template parsing + field provenance over go/ssa + exhaustive evaluation of the GOARCH tables",
   text="Decides the wiring of control metadata: every label/key of the deb, ipk and apk templates, the rpm metadata literal and the archlinux key/value writer is fed from the configuration field the statement pairs it with (all eight relation kinds), optional labels are guarded by their own field, the five GOARCH tables agree with the documented table for every documented architecture, the format-specific override wins verbatim, and the version slot depends on every component the format's syntax has. Decides wiring, not rendering.",
   note="Trusted: text/template/parse, go/ssa. Not decided: rendering of arbitrary description text, escaping, what a control-file parser recovers."),
 "C03": dict(ref="§5 C03", tech="static analysis: stream-coupling and dominance rules over go/ssa",
   text="Decides that every digest nfpm computes itself is fed by the same byte stream that is shipped (MultiWriter/TeeReader coupling or the same SSA value), is read only after feeding is complete (after the compressor's Close where it sits below one), that the md5sums name is the header name, that the mtree verbs are bound to the matching fields and .PKGINFO comes first, and that size accumulators are fed from the copied entries. Decides coupling and order, not digest values.",
   note="Trusted: go/ssa dominators; hash/io library semantics. Not decided: digest/size values, rpmpack's internal digests."),
 "C04": dict(ref="§5 C04", tech="static analysis: must-precede ordering (dominance) + name provenance + decision table of the compressor switch",
   text="Decides container structure from source: ar member order and names of deb, ipk's three members, apk segment order with cut/full kinds and .PKGINFO first, archlinux's .PKGINFO-first mtree and .INSTALL guard, the deb compression name->constructor->suffix table (unknown => error), that every tar member name derives from the format's relative-name helper or a relative constant, and close-before-use of nested archives. Necessary conditions of well-formedness, not acceptance by foreign readers.",
   note="Trusted: go/ssa. Not decided: acceptance by dpkg/rpm/apk/pacman, 512-byte alignment arithmetic, rpm lead/header layout (rpmpack)."),
 "C05": dict(ref="§5 C05", tech="static analysis: finite-domain abstract evaluation of the planner's decision tables + dominance rules on the destination map",
   text="Decides exhaustively (every packager x entry tag x entry type cell, by abstract evaluation of files.PrepareForPackager over go/ssa) that selection and type dispatch follow the statement's table, that Contents.Less is the lexicographic (destination, type, packager) order on all 27 orderings, that every insert into the destination map is dominated by a collision check on the same map, that parents are added before each entry, that the plan is sorted before every success return, and that every map iteration in the planner is order-insensitive. Decides these structural clauses, not path-normalisation semantics.",
   note="Trusted: go/types, go/ssa and its dominator tree; filepath/fileglob semantics are not analysed. The evaluator forks on any condition it cannot decide (may-semantics)."),
 "C06": dict(ref="§5 C06", tech="static analysis: error-discipline dataflow over go/ssa (dropped / swallowed errors, checked-close typestate, must-pass-through on the CLI error edge)",
   text="Decides, on every path of the packaging call graph of all five formats, the CLI and the signing helpers, that no error from a write-side, source-read, signing or module call is dropped or swallowed, that every closer layered over the output stream is closed with its error propagated before any success return, that invalid settings end in a non-nil error, and that the CLI's failure edge removes the target and exits non-zero. Quantifies over all paths and call sites of the code, which covers every write index at which the writer can fail; it does not execute faults.",
   note="Trusted: go/ssa; third-party writers (tar, gzip, pgzip, zstd, xz, rpmpack) report sink errors through Write/Close. Not decided: behaviour under real ENOSPC, library-internal error handling beyond blakesmith/ar (thorough)."),
 "C07": dict(ref="§5 C07", tech="static analysis: who-may-call rules for nondeterminism sources + map-iteration effect classification over go/ssa",
   text="Decides that the build-time clock enters only through internal/modtime.Get and that every call of it is fed first from the configured mtime or an entry mtime, that the host name is read only when no build host is configured, that no other nondeterminism source (rand, pid, cwd, CPU count, environment) is reachable from the packagers, that every map iteration is order-insensitive or sorted, that compressor headers get no non-constant fields and that module code spawns no goroutine. Necessary conditions for reproducibility, not byte equality of two runs.",
   note="Trusted: go/ssa. Not decided: determinism of pgzip/zstd/xz across GOMAXPROCS, timezone effects inside chglog, actual byte equality."),
 "C08": dict(ref="§5 C08", tech="static analysis: exhaustive abstract evaluation of the (entry type x packager) registration matrix",
   text="Decides every cell of the (14 user-settable entry types x 5 packagers) matrix from source: membership of deb/ipk conffiles and archlinux backup is exactly the three config types with the right path helper, the rpm flag constant per type equals the RPMFILE_* value the statement names (noreplace/missingok exactly when declared, ghost/doc/licence/readme exact), the ghost default mode is 0644 only when no mode is set, and rpm-only types never reach another format.",
   note="Trusted: go/ssa, go/constant; rpmpack's FileType constants (cross-checked against RPMFILE_* numbers). Not decided: what a glob matches on disk."),
 "C09": dict(ref="§5 C09", tech="static analysis: table extraction and field provenance of script slots over go/ssa",
   text="Decides the full (script field x packager) wiring matrix: each of the 15 script-path fields reaches exactly the slot the statement names in the formats that own it and no other, each slot is guarded by non-emptiness of its own field, modes are the stated constants, and the bytes flow unmodified from the file read to the slot (only string/[]byte conversions in between).",
   note="Trusted: go/ssa; rpmpack's Add* API meaning (thorough: tag numbers). Binary safety is argued from 'no transformation on the path', not tested."),
 "C10": dict(ref="§5 C10", tech="static analysis: value identity between signed and stored bytes + typed-error path rule over go/ssa",
   text="Decides that the bytes handed to each signer are the same SSA values, in the same order, as the bytes stored (deb debsign and dpkg-sig incl. member names, apk control digest, rpm callback adapter), that signature member names are as specified, that the signature type is validated before signing, that a signer is installed iff configured, and that every failure path of a signing function returns *nfpm.ErrSigningFailure, which unwraps to the signer's error.",
   note="Trusted: go/ssa; cryptographic validity of go-crypto/rsa is not analysed."),
 "C11": dict(ref="§5 C11", tech="static analysis: ownership / effect analysis (field-sensitive points-to over package files, store classification over the packager call graph)",
   text="Decides that no packaging, file-name or validate operation stores through memory shared with the parsed configuration: the plan returned by files.PrepareForPackager is deep-fresh (points-to), packagers write Content fields only after the prepare boundary, in-place writes reachable from ConventionalFileName are idempotent by shape, no shared map is updated, and nothing outside the CLI mutates the file system. Decides absence of the channels through which one build could influence another, not byte identity.",
   note="Trusted: go/ssa; mergo model (maps re-made per Get, slices shared, pointers merged in place); yaml slices have cap==len. Byte identity additionally needs C07's library assumptions."),
 "C12": dict(ref="§5 C12", tech="static analysis: shared-write absence (effects + globals + goroutine + atomic-field discipline) over go/ssa",
   text="Decides that two concurrent packagings cannot write a location both can reach: no store to the shared configuration graph (C11's analysis), every package-level variable is written only under the registry lock or never, fields accessed atomically are accessed only atomically, and module code starts no goroutine. A race needs a shared written location; the check decides there is none in module code.",
   note="Trusted: go/ssa. Not decided: races inside pgzip/zstd/go-crypto; scheduler behaviour; 'equals sequential' as byte identity."),
 "C13": dict(ref="§5 C13", tech="static analysis: shape of Config.Get (go/ssa) + type-tree walk for merge-aliasing hazards + decision table of the content filter",
   text="Decides that Config.Get merges exactly the base info into a fresh Info and then the override block looked up by the requested format into its overridable part (override option only), that the content filter keeps an entry iff its packager tag is empty or the requested format (exhaustive table), that validation passes every override key to the packager registry, and that no overridable field has a pointer kind through which mergo would write into the base configuration.",
   note="Trusted: mergo's documented semantics (pointer merge-in-place, maps re-made); reflective merge behaviour per kind is not analysed."),
 "C14": dict(ref="§5 C14", tech="static analysis: decision table of the version schema + separator-literal provenance in templates and formatters",
   text="Decides that under schema 'none' the version is untouched and otherwise the semver split rewrites the version only on a successful parse and fills prerelease/metadata only when empty (explicit values win, nothing duplicated), that the literal before the prerelease is '~' in deb, ipk and rpm (the character both dpkg and rpm order before end-of-string), metadata is introduced by '+', release by '-', epoch by '<epoch>:' or the numeric rpm tag with its parse error propagated, and that rpm/archlinux sanitise '-' in the prerelease.",
   note="Trusted: Masterminds/semver grammar; dpkg/rpm comparison algorithms (the '~' argument). Concrete version comparison is not executed."),
 "C15": dict(ref="§5 C15", tech="static analysis: shared-composition / equal-provenance rule between file name and metadata + CLI target phi structure",
   text="Decides per packager that the conventional file name and the inner metadata take name, version components and architecture from the same helpers or the same field sets with the same separators after the same architecture translation, that the name ends in the format's extension, that file-name side effects are idempotent, and that the CLI creates exactly target / conventional name / join(target, conventional name) selected by (target empty, target is a directory) and infers the packager from the extension only when none is given.",
   note="Trusted: go/ssa. Concrete strings are not computed."),
 "C16": dict(ref="§5 C16", tech="static analysis: decoder typestate (KnownFields dominates Decode) + coverage of documented-expandable keys by the expansion function",
   text="Decides that the only decode of the configuration runs on a decoder with KnownFields(true) set before Decode and that all parse entry points route through it, that no reachable type has a custom unmarshaler or free-form field, that every key documented as expandable is assigned from os.Expand of itself with the caller's mapping (lists via the trim-and-drop helper), that content source/destination are expanded only on the expand:true edge, and that passphrases take the format-specific variable with the general one as fallback.",
   note="Trusted: yaml.v3 KnownFields is recursive; os.Expand semantics."),
 "C17": dict(ref="§5 C17", tech="static analysis: struct-tag walk (go/types) compared with the published schema and with the values the code accepts",
   text="Decides for every field reachable from Config that yaml and json names agree (schema key path <=> parser key path), that the published schema.json equals the statically reflected structure on the modelled keywords (definitions, property lists, required, enums, additionalProperties), and that every value the code accepts for an enumerated setting is in the schema's enum.",
   note="Trusted: the stated model of invopop/jsonschema reflection. Not decided: validation of generated documents; byte identity beyond the modelled keywords."),
}

def main():
    built = subprocess.run([os.path.join(here, "bin/nfpmcheck"), "-list"], capture_output=True, text=True).stdout.split()
    checks, na = [], []
    for pid in sorted(P):
        p = P[pid]
        if pid in built:
            checks.append({
                "property_id": pid,
                "quick_cmd": f"./check {pid} quick",
                "thorough_cmd": f"./check {pid} thorough",
                "evidence_file": f"/verif/evidence/{pid}.json",
                "replay_cmd_template": "bin/nfpmcheck -replay {path}",
                "engine": "nfpmcheck",
                "level_claimed": {"category": "other", "text": p["text"], "design_ref": "DESIGN.md " + p["ref"]},
                "level_note": p["note"],
                "technique": p["tech"],
            })
        else:
            na.append({"property_id": pid, "reason": "check not built yet in this revision of /verif (static rule set designed in DESIGN.md " + p["ref"] + "); not claimed until the rule is exact on the pinned tree"})
    m = {
        "version": 1,
        "setup_cmd": "cd /verif/analyzer && GOFLAGS=-mod=mod GOPROXY=off GOSUMDB=off GOTOOLCHAIN=local GOWORK=off go build -o ../bin/nfpmcheck .",
        "hooks": {
            "guard": "verif",
            "enable": "no hooks: the analysis reads /repo's source (go/packages + go/ssa); nothing is built with a tag",
            "baseline_off_cmd": "cd /repo && GOFLAGS=-mod=mod GOPROXY=off GOSUMDB=off go test -vet=off -count=1 ./...",
            "source_commits": [],
            "add_only": True,
        },
        "engines": [{
            "name": "nfpmcheck",
            "path": "/verif/analyzer",
            "serves_properties": [c["property_id"] for c in checks],
            "kind_free_text": "repository-specific static analyzer (Go; go/packages + go/types + go/ssa from golang.org/x/tools v0.29.0): abstract evaluation of decision tables, field provenance, dominance/ordering rules, error-discipline and ownership/effect analyses; reads /repo's current source on every run, executes nothing of it",
        }],
        "checks": checks,
        "notes": "All verdicts are computed statically from /repo's working tree. A tree that fails to load or type-check fails every check (never vacuously clean). Known, triaged findings are in /verif/known_findings.json and are printed as KNOWN-FINDING lines; fix: commits in /repo are recorded there as 'fixed'.",
        "not_applicable": na,
    }
    json.dump(m, open(os.path.join(here, "MANIFEST.json"), "w"), indent=1)
    print("checks:", [c["property_id"] for c in checks], "not_applicable:", [n["property_id"] for n in na])

main()
