#!/usr/bin/env python3
"""Prints the markdown table of kept seeded changes (/verif/seeded/*/meta.json)."""
import json, os, re
verif = os.path.dirname(os.path.dirname(os.path.abspath(__file__)))
rows = []
for sid in sorted(os.listdir(os.path.join(verif, "seeded"))):
    mp = os.path.join(verif, "seeded", sid, "meta.json")
    if not os.path.exists(mp):
        continue
    m = json.load(open(mp))
    own = m["breaks_property"]
    fired = m.get("checks_fired_quick", {})
    rule = ""
    if own in fired and fired[own]:
        mm = re.search(r"rule=(\S+)", fired[own][0])
        rule = mm.group(1) if mm else ""
    others = ", ".join(sorted(k for k in fired if k != own))
    what = m.get("summary", "")
    rows.append((sid, own, "yes: " + rule if own in fired else "**no**", others, what))
import sys
lines = ["| seeded change | breaks | caught by its own check (rule) | other checks that fire | what it is |", "|---|---|---|---|---|"]
lines += ["| %s | %s | %s | %s | %s |" % r for r in rows]
print("\n".join(lines))
if "--write" in sys.argv:
    dp = os.path.join(verif, "DESIGN.md")
    d = open(dp).read()
    a = d.index("<!-- seeded-table:start")
    a = d.index("\n", a) + 1
    b = d.index("<!-- seeded-table:end -->")
    open(dp, "w").write(d[:a] + "\n".join(lines) + "\n" + d[b:])
