#!/usr/bin/env python3
"""Self-test of the rules, both ways (DESIGN §9).

Each entry of mutants.json is a small source edit applied to a scratch git
worktree of /repo (under $TMPDIR, removed afterwards). 'fire' entries must
still type-check and make the named property's check report a violation whose
text contains `expect`; 'silent' entries are behaviour-preserving refactors
and must leave every listed property's check quiet.

usage: run.py [name-substring ...]
"""
import json, os, subprocess, sys, tempfile, shutil
here = os.path.dirname(os.path.abspath(__file__))
verif = os.path.dirname(here)
env = dict(os.environ, GOFLAGS="-mod=mod", GOPROXY="off", GOSUMDB="off", GOTOOLCHAIN="local", GOWORK="off")

def sh(*a, **k):
    return subprocess.run(a, capture_output=True, text=True, **k)

def main():
    muts = json.load(open(os.path.join(here, "mutants.json")))
    sel = sys.argv[1:]
    if sel:
        muts = [m for m in muts if any(s in m["name"] for s in sel)]
    tmp = tempfile.mkdtemp(prefix="nfpm-selftest-")
    wt = os.path.join(tmp, "repo")
    r = sh("git", "-C", "/repo", "worktree", "add", "--detach", wt, "HEAD")
    if r.returncode != 0:
        print(r.stderr); sys.exit(2)
    bad = 0
    try:
        subprocess.run([os.path.join(verif, "check"), "C05", "quick"], capture_output=True, env=dict(env, NFPM_REPO=wt))
        for m in muts:
            sh("git", "-C", wt, "checkout", "--", ".")
            sh("git", "-C", wt, "clean", "-fdq")
            ok_apply = True
            for e in m["edits"]:
                p = os.path.join(wt, e["file"])
                s = open(p).read()
                if e["old"] not in s:
                    ok_apply = False
                    break
                s = s.replace(e["old"], e["new"], 1)
                open(p, "w").write(s)
            if not ok_apply:
                print(f"SKIP  {m['name']}: edit no longer applies")
                continue
            b = sh("go", "build", "./...", cwd=wt, env=env)
            if b.returncode != 0:
                print(f"BROKEN {m['name']}: mutant does not compile: {b.stderr.strip()[:300]}")
                bad += 1
                continue
            for prop in m["properties"]:
                r = subprocess.run([os.path.join(verif, "bin/nfpmcheck"), "-verif", verif, "-out", tmp, "-repo", wt, "-property", prop, "-tier", m.get("tier", "quick")],
                                   capture_output=True, text=True, env=env)
                out = r.stdout
                if m["kind"] == "fire":
                    hit = r.returncode == 1 and m["expect"] in out
                    print(("ok    " if hit else "MISS  ") + f"{m['name']} [{prop}] " + ("" if hit else f"(exit {r.returncode}; wanted text {m['expect']!r})"))
                    if not hit:
                        bad += 1
                        print("      " + "\n      ".join(out.strip().splitlines()[-6:]))
                else:
                    # silent: no violation beyond those of the unmutated tree
                    quiet = r.returncode == 0
                    print(("ok    " if quiet else "ALARM ") + f"{m['name']} [{prop}] (must stay silent)")
                    if not quiet:
                        bad += 1
                        print("      " + "\n      ".join(l for l in out.splitlines() if "rule=" in l))
    finally:
        sh("git", "-C", "/repo", "worktree", "remove", "--force", wt)
        shutil.rmtree(tmp, ignore_errors=True)
    print("selftest:", "FAILED %d" % bad if bad else "all ok", f"({len(muts)} variants)")
    sys.exit(1 if bad else 0)

main()
